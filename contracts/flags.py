"""Contracts of pymap/flags.py (FlagOp, PermanentFlags, SessionFlags) -- kernels of C10 and C17."""
import types

import z3

from pyvc.values import *
from pyvc.engine import Contract, Loop
from .dictmbx import Flag, FLAG_RECENT, FLAG_WILDCARD, FLAGS_DISTINCT

F = 'pymap/flags.py'

FlagOpS = RefS('FlagOp')
OP_ADD = VRef(z3.Const('FlagOp.ADD', FlagOpS.z3()), FlagOpS)
OP_DELETE = VRef(z3.Const('FlagOp.DELETE', FlagOpS.z3()), FlagOpS)
OP_REPLACE = VRef(z3.Const('FlagOp.REPLACE', FlagOpS.z3()), FlagOpS)
OPS_DISTINCT = z3.Distinct(OP_ADD.t, OP_DELETE.t, OP_REPLACE.t)

_recent_set = SetS(Flag).empty().add(FLAG_RECENT)
_recent_set.frozen = True
GLOBALS = {'FlagOp': types.SimpleNamespace(ADD=OP_ADD, DELETE=OP_DELETE, REPLACE=OP_REPLACE),
           'Wildcard': FLAG_WILDCARD, 'Recent': FLAG_RECENT, '_recent_set': _recent_set}
CONSTS = [('constants_distinct', lambda s: VBool(z3.And(FLAGS_DISTINCT, OPS_DISTINCT)))]


def apply_spec(op, a, b):
    """the reference model of STORE: FLAGS replaces, +FLAGS adds, -FLAGS removes"""
    return ite(op.eq(OP_ADD), a | b, ite(op.eq(OP_DELETE), a - b, b))


flagop_apply = Contract(
    'C10', F, 'FlagOp.apply', params=dict(self=FlagOpS, flag_set=SetS(Flag), operand=SetS(Flag)),
    requires=CONSTS,
    ensures=[('is_reference_model', lambda s: s.result == apply_spec(s.self, s.flag_set, s.operand))],
    globals=GLOBALS, modifies=[], raises_only=(), returns=SetS(Flag), pure=True)

PermS = RecS('PermanentFlags', pyclass=(F, 'PermanentFlags'), _defined=SetS(Flag))
SessS = RecS('SessionFlags', pyclass=(F, 'SessionFlags'), _defined=SetS(Flag),
             _flags=MapS(INT, SetS(Flag)), _recent=SetS(INT))


def permitted(defined, other):
    return ite(defined.has(FLAG_WILDCARD), other, defined & other)


perm_intersect = Contract(
    'C10', F, 'PermanentFlags.intersect', params=dict(self=PermS, other=SetS(Flag)),
    requires=CONSTS,
    ensures=[('exactly_the_permitted_flags', lambda s: s.result == permitted(s.self._defined, s.other))],
    globals=GLOBALS, modifies=[], raises_only=(), returns=SetS(Flag), pure=True)

perm_init = Contract(
    'C17', F, 'PermanentFlags.__init__', params=dict(self=PermS, defined=SetS(Flag)),
    requires=CONSTS,
    ensures=[('recent_is_never_permanent', lambda s: ~s.self._defined.has(FLAG_RECENT)),
             ('otherwise_as_given', lambda s: forall(lambda f: implies(
                 f != FLAG_RECENT, s.self._defined.has(f) == s.defined.has(f)), sort=Flag))],
    calls={'super().__init__': lambda ex, frame, e: VNone()},
    globals=GLOBALS, modifies=['self._defined'], raises_only=(), returns=NoneS())

sess_intersect = Contract(
    'C10', F, 'SessionFlags.intersect', params=dict(self=SessS, other=SetS(Flag)),
    requires=CONSTS,
    ensures=[('exactly_the_permitted_flags', lambda s: s.result == permitted(s.self._defined, s.other))],
    globals=GLOBALS, modifies=[], raises_only=(), returns=SetS(Flag), pure=True)

sess_get = Contract(
    'C17', F, 'SessionFlags.get', params=dict(self=SessS, uid=INT),
    requires=CONSTS,
    ensures=[('flags_plus_recent', lambda s: forall(lambda f: s.result.has(f) == (
        (s.self._flags.has(s.uid) & s.self._flags[s.uid].has(f)) | ((f == FLAG_RECENT) & s.self._recent.has(s.uid))),
        sort=Flag))],
    globals=GLOBALS, modifies=[], raises_only=(), returns=SetS(Flag), pure=True)

sess_add_recent = Contract(
    'C17', F, 'SessionFlags.add_recent', params=dict(self=SessS, uid=INT),
    ensures=[('adds_exactly_uid', lambda s: forall(lambda u: s.self._recent.has(u) == (
        s.old.self._recent.has(u) | (u == s.uid))))],
    globals=GLOBALS, modifies=['self._recent'], raises_only=(), returns=NoneS())

sess_remove = Contract(
    'C17', F, 'SessionFlags.remove', params=dict(self=SessS, uids=ListS(INT)),
    ensures=[('removes_exactly', lambda s: forall(lambda u: (
        s.self._recent.has(u) == (s.old.self._recent.has(u) & ~exists(
            lambda i: (i >= 0) & (i < s.uids.len) & (s.uids[i] == u)))) & (
        s.self._flags.has(u) == (s.old.self._flags.has(u) & ~exists(
            lambda i: (i >= 0) & (i < s.uids.len) & (s.uids[i] == u))))))],
    loops={0: Loop(invariant=[
        ('prefix_removed', lambda s: forall(lambda u: (
            s.self._recent.has(u) == (s.pre.self._recent.has(u) & ~exists(
                lambda i: (i >= 0) & (i < s.k) & (s.uids[i] == u)))) & (
            s.self._flags.has(u) == (s.pre.self._flags.has(u) & ~exists(
                lambda i: (i >= 0) & (i < s.k) & (s.uids[i] == u)))))),
        ('values_kept', lambda s: forall(lambda u: implies(
            s.self._flags.has(u), s.self._flags[u] == s.pre.self._flags[u]))),
    ])},
    globals=GLOBALS, modifies=['self._recent', 'self._flags'], raises_only=(), returns=NoneS())


def _flagop_apply_call(ex, frame, e):
    """callee contract of FlagOp.apply (proved above): its postcondition"""
    op = ex.eval(e.func.value, frame)
    args, kw = ex.eval_args(e, frame)
    r = apply_spec(op, args[0], args[1])
    r.frozen = True
    return r


sess_update = Contract(
    'C10', F, 'SessionFlags.update', params=dict(self=SessS, uid=INT, flag_set=SetS(Flag), op=FlagOpS),
    requires=CONSTS + [('stored_sets_nonempty', lambda s: forall(lambda u: implies(
        s.self._flags.has(u), ~s.self._flags[u].is_empty()))),
        ('recent_not_a_session_flag', lambda s: ~s.self._defined.has(FLAG_RECENT) &
         ~s.self._defined.has(FLAG_WILDCARD)),
        ('stored_sets_have_no_recent', lambda s: forall(lambda u: implies(
            s.self._flags.has(u), ~s.self._flags[u].has(FLAG_RECENT))))],
    ensures=[
        ('result_is_reference_model', lambda s: s.result == apply_spec(
            s.op, ite(s.old.self._flags.has(s.uid), s.old.self._flags[s.uid], SetS(Flag).empty()),
            permitted(s.self._defined, s.flag_set))),
        ('stored_iff_nonempty', lambda s: (s.self._flags.has(s.uid) == ~s.result.is_empty()) &
         implies(s.self._flags.has(s.uid), s.self._flags[s.uid] == s.result)),
        ('other_uids_untouched', lambda s: forall(lambda u: implies(
            u != s.uid, (s.self._flags.has(u) == s.old.self._flags.has(u)) &
            (s.self._flags[u] == s.old.self._flags[u])))),
        ('recent_never_stored', lambda s: forall(lambda u: implies(
            s.self._flags.has(u), ~s.self._flags[u].has(FLAG_RECENT)))),
        ('stored_sets_nonempty', lambda s: forall(lambda u: implies(
            s.self._flags.has(u), ~s.self._flags[u].is_empty()))),
    ],
    calls={'op.apply': _flagop_apply_call}, inline={'SessionFlags.__and__', 'SessionFlags.intersect'},
    globals=GLOBALS, modifies=['self._flags'], raises_only=(), returns=SetS(Flag))

CONTRACTS = [flagop_apply, perm_intersect, perm_init, sess_intersect, sess_get, sess_add_recent, sess_remove,
             sess_update]
