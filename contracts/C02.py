"""C02 -- cross-session convergence (dict backend): the change log is a faithful record.

  RI       representation invariant of _ModSequenceMapping (contracts/modseq.py), preserved by
           update/expunge (with _set/_remove_prev inlined), and find_updated(m) returns exactly the uids whose
           live record has mod-seq >= m, split by kind
  LogInv   for every logged uid:  uid in _messages  <=>  its live record is an *update* record
  Logged   every uid in _messages is logged
  G (guarantee of every atomic segment of every mutator; = the rely for interference):
           highest never decreases; a uid whose presence changes, or whose flags change, gets a record above
           the highest mod-seq at segment start; records of other uids are untouched; the Message object of a
           present uid is never replaced
  => Agree(S, m0) ("for every uid whose live record is <= m0 the session agrees with the mailbox") is stable
     under interference, and update_selected turns Agree(S, S.mod_sequence) into Agree(S', highest)
     (contract of update_selected, using the add_updates contract of C01).
"""
import z3

from pyvc.values import *
from pyvc.engine import Contract, Atomic, Loop
from pyvc.prop import Property, Structural, Bounded, BoundedResult
from harness.e2e_converge import bounded_converge
from . import dictmbx as D
from . import state as ST
from . import modseq as M
from .dictmbx import MBX, Msg, F, Flag
from .modseq import RI, kind_upd, kind_exp, ri_clauses

REG = dict(D.BASE_REGISTRY)
REG[('ModSeq', 'update')] = M.update
REG[('ModSeq', 'expunge')] = M.expunge
REG[('ModSeq', 'find_updated')] = M.find_updated


def log_inv(m):
    ms = m._mod_sequences
    return forall(lambda u: implies(ms._uids.has(u), m._messages.has(u) == kind_upd(ms, u)))


def all_logged(m):
    ms = m._mod_sequences
    return forall(lambda u: implies(m._messages.has(u), ms._uids.has(u)))


def g_clauses(p):
    def hi(s):
        return getattr(s, p)._mod_sequences._highest >= getattr(s.seg, p)._mod_sequences._highest

    def presence(s):
        n, o = getattr(s, p), getattr(s.seg, p)
        return forall(lambda u: implies(n._messages.has(u) != o._messages.has(u),
                                        n._mod_sequences._uids.has(u) &
                                        (n._mod_sequences._uids[u] > o._mod_sequences._highest)))

    def forward(s):
        n, o = getattr(s, p), getattr(s.seg, p)
        return forall(lambda u: implies(o._mod_sequences._uids.has(u),
                                        n._mod_sequences._uids.has(u) &
                                        ((n._mod_sequences._uids[u] == o._mod_sequences._uids[u]) |
                                         (n._mod_sequences._uids[u] > o._mod_sequences._highest))))

    def same_obj(s):
        n, o = getattr(s, p), getattr(s.seg, p)
        return forall(lambda u: implies(n._messages.has(u) & o._messages.has(u),
                                        n._messages[u] == o._messages[u]))

    def flags(s):
        n, o = getattr(s, p), getattr(s.seg, p)
        return forall(lambda u: implies(
            n._messages.has(u) & o._messages.has(u) &
            (n._messages[u].permanent_flags != o._messages[u].permanent_flags),
            n._mod_sequences._uids[u] > o._mod_sequences._highest))
    return [(f'highest_monotone.{p}', hi), (f'presence_change_logged.{p}', presence),
            (f'records_move_forward.{p}', forward), (f'object_identity.{p}', same_obj),
            (f'flag_change_logged.{p}', flags)]


def atomic(shared, may_cancel=False):
    inv = []
    g = []
    for p in shared:
        inv += [(f'{l}.{p}', c) for l, c in ri_clauses(lambda s, p=p: getattr(s, p)._mod_sequences)]
        inv += [(f'LogInv.{p}', (lambda s, p=p: log_inv(getattr(s, p)))),
                (f'Logged.{p}', (lambda s, p=p: all_logged(getattr(s, p)))),
                (f'UidInv.{p}', (lambda s, p=p: forall(lambda u: implies(getattr(s, p)._messages.has(u),
                                                                          u <= getattr(s, p)._max_uid)))),
                (f'Alloc.{p}', (lambda s, p=p: D.alloc_inv(s, p))),
                (f'Live.{p}', (lambda s, p=p: forall(lambda u: implies(
                    getattr(s, p)._messages.has(u), ~getattr(s, p)._messages[u].expunged)))),
                (f'KeyUid.{p}', (lambda s, p=p: forall(lambda u: implies(
                    getattr(s, p)._messages.has(u), getattr(s, p)._messages[u].uid == u))))]
        g += g_clauses(p)
        g += [(f'max_uid_monotone.{p}', (lambda s, p=p: getattr(s, p)._max_uid >= getattr(s.seg, p)._max_uid))]
    return Atomic(shared=shared, invariant=inv, guarantee=g, rely=g,
                  shared_heap=[('Msg', 'permanent_flags'), ('Msg', 'recent')], on_yield=D.alloc_on_yield)


FlagOpS = RefS('FlagOp')
OP_ADD = VRef(z3.Const('FlagOp.ADD', FlagOpS.z3()), FlagOpS)
OP_DELETE = VRef(z3.Const('FlagOp.DELETE', FlagOpS.z3()), FlagOpS)
OP_REPLACE = VRef(z3.Const('FlagOp.REPLACE', FlagOpS.z3()), FlagOpS)


def flagop_apply(ex, frame, e):
    """callee contract of FlagOp.apply (proved in C10): ADD -> a|b, DELETE -> a-b, else b"""
    mode = ex.eval(e.func.value, frame)
    args, kw = ex.eval_args(e, frame)
    a, b = args
    r = ite(mode.eq(OP_ADD), a | b, ite(mode.eq(OP_DELETE), a - b, b))
    r.frozen = True
    return r


CALLS = dict(D.BASE_CALLS)
CALLS['mode.apply'] = flagop_apply

copy = Contract('C02', F, 'MailboxData.copy', params=dict(self=MBX, uid=INT, destination=MBX, recent=BOOL),
                alias=[('self', 'destination')], calls=CALLS, atomic=atomic(['self', 'destination']),
                raises_only=(), ghost_init=D.ghost_init)
move = Contract('C02', F, 'MailboxData.move', params=dict(self=MBX, uid=INT, destination=MBX, recent=BOOL),
                alias=[('self', 'destination')], calls=CALLS, atomic=atomic(['self', 'destination']),
                raises_only=(), ghost_init=D.ghost_init)
append = Contract('C02', F, 'MailboxData.append', globals=D.GLOBALS, params=dict(self=MBX, append_msg=D.AppendMsg, recent=BOOL),
                  calls=CALLS, atomic=atomic(['self']), raises_only=(), ghost_init=D.ghost_init, returns=Msg)
delete = Contract('C02', F, 'MailboxData.delete', params=dict(self=MBX, uids=ListS(INT)),
                  requires=[('uids_distinct', lambda s: M.distinct(s.uids))],
                  calls=CALLS, atomic=atomic(['self']),
                  loops={0: Loop(invariant=[
                      ('log_fixed', lambda s: conj(*[
                          getattr(s.self._mod_sequences, f) == getattr(s.pre.self._mod_sequences, f)
                          for f in ('_highest', '_uids', '_mod_seqs_order', 'g_pos')]) &
                       (s.self._mod_sequences._updates == s.pre.self._mod_sequences._updates) &
                       (s.self._mod_sequences._expunges == s.pre.self._mod_sequences._expunges)),
                      ('removed_prefix', lambda s: forall(lambda u: s.self._messages.has(u) == (
                          s.pre.self._messages.has(u) & ~M.in_list(s.uids, u, 0, s.k)))),
                      ('same_objects', lambda s: forall(lambda u: implies(
                          s.self._messages.has(u), s.self._messages[u] == s.pre.self._messages[u]))),
                  ])},
                  raises_only=(), ghost_init=D.ghost_init)

update = Contract('C02', F, 'MailboxData.update',
                  params=dict(self=MBX, uid=INT, cached_msg=Msg, flag_set=SetS(Flag), mode=FlagOpS),
                  calls=CALLS, inline={'MailboxData.get'}, atomic=atomic(['self']),
                  raises_only=(IndexError, TypeError), ghost_init=D.ghost_init, returns=Msg,
                  requires=[('cached_allocated', lambda s: s.ghost('alloc.Msg').has(s.cached_msg))],
                  note='a STORE on a uid another session expunged must not log an update for an absent uid')

CONTRACTS = [M.update, M.expunge, M.find_updated, append, copy, move, delete, update]


def _bounded():
    from . import dict_harness as H
    return [Bounded('dict MailboxData mutators: RI/LogInv/G on reachable states',
                    'every sequence of <= 2 (quick) / 3 (thorough) operations from {append x2, delete x2, update, '
                    'copy, move} on a fresh real MailboxData, then every call of append/copy/move/delete/update '
                    'with uids in 101..103, self/other destination, all three flag modes; every invariant and '
                    'guarantee clause of the contract evaluated on the observed pre/post state',
                    H.bounded_mailbox([append, copy, move, delete, update]), stands_for=None)] + [
        Bounded(f'protocol-level convergence on the real server ({bk})',
                'histories of 18 commands (STORE by sequence number and by UID in all three modes, with and without .SILENT; '
                'EXPUNGE, UID EXPUNGE, APPEND, COPY into the same mailbox, MOVE away, FETCH, NOOP) by 2-3 sessions that have '
                'INBOX selected: every ordered pair by two sessions with and without a poll in between, pairs by one session, '
                '600 (quick) / 12000 (thorough) seeded histories of 3-5 steps with polls at random places [maildir: a seeded '
                'sample of 160 / 2500]; at every poll and at the end every session issues NOOP and its client model (uids and '
                'flags; its own .SILENT changes applied by the client) must equal what an observer connection sees '
                '(harness/e2e_converge.py)', bounded_converge('C02', bk), decisive=False)
        for bk in ('dict', '++', 'fs')]

# ---- dict MailboxData.update_selected: one synchronisation brings the session's view into agreement with the mailbox
#      (the step from the proved log property to convergence)
from . import selected as SELM  # noqa: E402
from pyvc.values import _t, _b  # noqa: E402
from .selected import SEL, sm_clauses, flag_set_sound, add_updates as sel_add_updates  # noqa: E402
from .modseq import find_updated as ms_find_updated  # noqa: E402


def _view(s):
    return s.selected._messages


def _has_record_since(ms, u, m):
    return ms._uids.has(u) & (ms._uids[u] >= m)


def _agrees(v, mbx, u):
    """the view holds u if the mailbox does, and holds nothing the mailbox lacks except deferred expunges"""
    return implies(mbx._messages.has(u), v._uids.has(u)) & implies(v._uids.has(u) & ~mbx._messages.has(u), v._pending_remove.has(u))


def _agree_up_to(s):
    """what holds between two synchronisations: for every uid WITHOUT a log record at or above the session's mod-sequence
    the view agrees with the mailbox; with no mod-sequence yet the view holds nothing the mailbox lacks (but deferred)"""
    mbx, v, ms = s.self, _view(s), s.self._mod_sequences
    m = s.selected._mod_sequence
    return ite(is_none(m),
               forall(lambda u: implies(v._uids.has(u) & ~mbx._messages.has(u), v._pending_remove.has(u))),
               forall(lambda u: implies(~_has_record_since(ms, u, m.val()), _agrees(v, mbx, u))))


def _deferred_are_gone(s):
    return forall(lambda u: implies(_view(s)._pending_remove.has(u), ~s.self._messages.has(u)))


def _add_updates_bridged(ex, frame, e, base=None):
    """selected.add_updates(...) through its contract, preceded by two proof steps (each an obligation of its own, then
    available): which uids the message list passed carries -- with an explicit witness index for the comprehension"""
    from pyvc.engine import unview as _unview
    name = ex.c.name
    msgs = ex.eval(e.args[0], frame)
    me = frame.env['self']
    mrec = _unview(me) if not isinstance(me, VRec) else me
    mdom = ex.st.store[mrec.rid]['_messages']
    uid_of = lambda t: _t(ex.st.heap_get(Msg.wrap(t), 'uid'))
    u, i = z3.Int(fresh_name('bu')), z3.Int(fresh_name('bi'))
    upd = frame.env.get('updated')
    if upd is not None and not hasattr(upd, 'arr'):
        upd = ex.st.read(upd.loc)           # a local container lives in a cell
    if upd is not None and hasattr(msgs, 'comp'):
        src, inv, seq = msgs.comp
        pos = seq.pos
        w = inv(pos(u))
        ex.lemma(f'{name}/bridge/every_updated_uid_still_stored_is_in_the_list_passed',
                 z3.ForAll([u], z3.Implies(z3.And(upd.arr[u], mdom.dom[u]),
                                           z3.And(w >= 0, w < msgs.n, uid_of(z3.Select(msgs.arr, w)) == u))))
        ex.lemma(f'{name}/bridge/the_list_passed_holds_only_updated_uids_still_stored',
                 z3.ForAll([i], z3.Implies(z3.And(i >= 0, i < msgs.n), z3.And(
                     upd.arr[uid_of(z3.Select(msgs.arr, i))], mdom.dom[uid_of(z3.Select(msgs.arr, i))],
                     z3.Select(msgs.arr, i) == z3.Select(mdom.val, uid_of(z3.Select(msgs.arr, i)))))))
    return ex.call_contract(sel_add_updates, e, frame)


update_selected = Contract(
    'C02', F, 'MailboxData.update_selected', variant='no-wait',
    params=dict(self=MBX, selected=SEL, wait_on=NoneS()),
    requires=ri_clauses(lambda s: s.self._mod_sequences) + sm_clauses(_view) + [
        ('S7_flag_set_sound', lambda s: flag_set_sound(_view(s))),
        ('LogInv', lambda s: log_inv(s.self)),
        ('AgreeUpTo_the_sessions_mod_sequence', _agree_up_to),
        ('deferred_expunges_are_gone_from_the_mailbox', _deferred_are_gone),
        ('stored_messages_carry_their_uid', lambda s: forall(lambda u: implies(
            s.self._messages.has(u), (s.wrap(s.self._messages[u]).uid == u) & (s.self._messages[u].flags_key[0] == u)))),
    ],
    ensures=[
        ('the_view_is_the_mailbox_plus_deferred_expunges', lambda s: forall(lambda u: _agrees(_view(s), s.self, u))),
        ('deferred_expunges_are_gone_from_the_mailbox', _deferred_are_gone),
        ('nothing_is_deferred_unless_expunges_are_hidden', lambda s: implies(
            ~s.selected._hide_expunged, _view(s)._pending_remove.is_empty())),
        ('the_session_is_at_the_highest_mod_sequence', lambda s: ~is_none(s.selected._mod_sequence) & (
            s.selected._mod_sequence.val() == s.self._mod_sequences._highest)),
        ('mailbox_untouched', lambda s: (s.self._messages == s.old.self._messages) &
         (s.self._mod_sequences._highest == s.old.self._mod_sequences._highest)),
    ],
    calls={'self._mod_sequences.find_updated': ms_find_updated, 'selected.add_updates': _add_updates_bridged},
    inline={'SelectedMailbox.mod_sequence', '_ModSequenceMapping.highest'},
    modifies=['selected'], raises_only=(), returns=SEL)


# ---- composition lemmas (z3): what the writers' guarantee G does to a session that is NOT running
#
# update_selected needs AgreeUpTo(session mod-sequence) and "deferred expunges are gone" as preconditions.  Between two
# synchronisations of a session any number of segments of other tasks run; each satisfies G (proved for every writer
# above) and leaves the session's own objects alone (the mutators' frames contain the mailbox only).  The lemmas restate
# AgreeUpTo / G over plain functions (M: uid -> stored?, has/rec: the live log record, H: highest, V / P: the view and its
# deferred set, m: the session's mod-sequence) and show both preconditions stable under one such segment -- by induction
# over the segments they hold at the next synchronisation.  The formulas mirror _agree_up_to, _deferred_are_gone and
# g_clauses line by line (kept next to them on purpose).
def _lemma_symbols():
    B, I = z3.BoolSort(), z3.IntSort()
    F_ = lambda n, r: z3.Function(n, I, r)
    return dict(M=F_('M', B), M2=F_('M2', B), has=F_('has', B), has2=F_('has2', B), rec=F_('rec', I), rec2=F_('rec2', I),
                V=F_('V', B), P=F_('P', B), H=z3.Int('H'), H2=z3.Int('H2'), m=z3.Int('m'),
                mx=z3.Int('max_uid'), mx2=z3.Int('max_uid2'), u=z3.Int('u'))


def _agree_formula(y, M, has, rec):
    u, V, P, m = y['u'], y['V'], y['P'], y['m']
    agrees = z3.And(z3.Implies(M(u), V(u)), z3.Implies(z3.And(V(u), z3.Not(M(u))), P(u)))
    return z3.ForAll([u], z3.Implies(z3.Not(z3.And(has(u), rec(u) >= m)), agrees))


def _g_formula(y):
    u = y['u']
    return z3.And(
        y['H2'] >= y['H'],                                                                       # highest_monotone
        z3.ForAll([u], z3.Implies(y['M2'](u) != y['M'](u), z3.And(y['has2'](u), y['rec2'](u) > y['H']))),   # presence_change_logged
        z3.ForAll([u], z3.Implies(y['has'](u), z3.And(y['has2'](u), z3.Or(y['rec2'](u) == y['rec'](u),
                                                                            y['rec2'](u) > y['H'])))))      # records_move_forward


def lemma_agree_stable():
    y = _lemma_symbols()
    hyp = [_agree_formula(y, y['M'], y['has'], y['rec']), y['m'] <= y['H'], _g_formula(y)]
    goal = z3.And(_agree_formula(y, y['M2'], y['has2'], y['rec2']), y['m'] <= y['H2'])
    return hyp, goal


def lemma_deferred_stable():
    """a deferred expunge stays expunged: the uid was assigned once (<= _max_uid) and new keys lie above _max_uid (C04's
    guarantee uids_grow, proved for the same writers)"""
    y = _lemma_symbols()
    u = y['u']
    hyp = [z3.ForAll([u], z3.Implies(y['P'](u), z3.And(z3.Not(y['M'](u)), u <= y['mx']))),
           y['mx2'] >= y['mx'],
           z3.ForAll([u], z3.Implies(z3.And(y['M2'](u), z3.Not(y['M'](u))), u > y['mx']))]      # uids_grow
    goal = z3.ForAll([u], z3.Implies(y['P'](u), z3.And(z3.Not(y['M2'](u)), u <= y['mx2'])))
    return hyp, goal


from pyvc.prop import Lemma  # noqa: E402

PROPERTY = Property(
    'C02', 'Cross-session convergence: no lost, phantom or stuck updates',
    contracts=CONTRACTS + [update_selected, sel_add_updates, SELM.silence, ST.do_store],
    registry=dict(list(ST.REG.items()) + list(REG.items())),
    lemmas=[Lemma('C02/lemma/agree_up_to_is_stable_under_the_writers_guarantee', lemma_agree_stable),
            Lemma('C02/lemma/deferred_expunges_stay_expunged', lemma_deferred_stable)],
    factories={'FSet': lambda name, attrs, ctx: frozenset()},      # Msg.flags_key (declared by contracts/selected.py) in replays
    bounded=_bounded(), level='other', design_ref='6 C02',
    trusted_base=['asyncio cooperative scheduling', 'model of Message.__init__/Message.copy',
                  'FlagOp.apply through its contract (proved under C10)',
                  'update_selected: the agreement of the uids without a newer log record (AgreeUpTo) between two '
                  'synchronisations follows from the guarantee proved for every writer (two z3 lemmas over plain functions that '
                  'mirror the clauses; that they mirror them is by inspection; the view of a session that has no mod-sequence '
                  'yet is empty); flags of the '
                  'cached messages are not part of the agreement proved (uids only; for flags: SelectedMailbox.silence is proved '
                  'to suppress only keys computed from the synchronized flags, the rest is the bounded convergence run); the '
                  'wait_on branch is not under contract',
                  'silence: flag sets are opaque (apply / & / get uninterpreted): only the data flow is decided'],
)


