"""C18 -- how an argument is spelled does not change what it means.

Deductive kernel (pyvc + z3, real source of pymap/parsing/primitives.py, regexes through stated models):
  * QuotedString.parse consumes exactly its own bytes: the rest is the unconsumed suffix, the cached raw form is exactly
    the consumed bytes and is delimited by quotes, the value never contains a line break;
  * LiteralString.parse: the value has the announced length; the non-synchronising form {n+} takes the n bytes after the
    header and leaves the rest, the synchronising form {n} takes the first n bytes of the continuation and leaves its
    rest, ~ marks binary, and ParsingInterrupt is raised only while the continuation is still missing -- so the two
    literal spellings denote the same value.
  IMAPConnection.read_command / _interrupt (contracts/runstate.py): the continuation a {n} literal gets is exactly the
    announced number of bytes read after one continuation request, and the same line is parsed again with it.
Bounded (decides the remaining clauses on its scope): parser round trips on the real classes, the assumed regex models
against the re module, sibling spellings end to end on the real server."""
from pyvc.prop import Property, Bounded
from . import wire as W, runstate as RS
from harness.e2e_spelling import bounded_roundtrips, bounded_spellings

PROPERTY = Property(
    'C18', 'How an argument is spelled does not change what it means',
    contracts=W.CONTRACTS_C18 + RS.CONTRACTS_READ,
    bounded=[Bounded('parse / serialise / parse round trips of the real parsers, with delimiting suffixes',
                     'QuotedString, LiteralString ({n+}, ~{n+}, bare LF), String.build, AString, Atom: every word up to length 3 '
                     '(thorough 4) over alphabets with quote, backslash, CR, LF, NUL, 8-bit, space, brace; Number up to 10^30; '
                     'SequenceSet: all 1- and 2-element (thorough 3) sets over {1,2,10,2^32-1,*} and ranges, with the RFC 3501 '
                     'denotation for 5 mailbox sizes; 14 flags; 1080 date-times; 33 Unicode mailbox names in quoted and literal '
                     'spelling against an independent modified-UTF-7 codec; 27 fetch attributes; 8 suffixes each; plus the '
                     'regex models assumed by the contracts against re, exhaustive up to length 6',
                     bounded_roundtrips('C18'), decisive=True),
             Bounded('sibling spellings of one command program on fresh identical servers',
                     '9 programs (LOGIN, SELECT/EXAMINE, SEARCH strings, CREATE/SUBSCRIBE/LIST/LSUB/STATUS/RENAME/DELETE, '
                     'COPY/MOVE, APPEND incl. a 5000-octet literal, FETCH header names, ID, failing commands) x {atom, quoted, '
                     '{n}, {n+}} x {as is, lower, mixed case}: responses and final stored data identical',
                     bounded_spellings('C18'), decisive=True)],
    level='other', design_ref='6 C18',
    explanation='deductive: the two string parsers consume exactly their bytes and the two literal forms denote the same '
                'value (z3, regex behaviour assumed through explicit models that the bounded run compares with re); the '
                'metamorphic clauses are decided on the stated scope on the real parsers and the real server',
    trusted_base=['models of re.finditer for (?:\\r|\\n|\\\\.|") and re.match for (~?){(\\d+)(\\+?)}\\r?\\n (contracts/wire.py), '
                  'checked against re exhaustively up to length 6', 'Parseable._whitespace_length returns the number of leading spaces',
                  'ExpectContinuation.expect returns the client\'s continuation data or raises ParsingInterrupt',
                  'independent modified-UTF-7 codec in harness/e2e_names.py'],
)
