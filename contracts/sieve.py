"""Contracts for C19: the dict-backend script store (pymap/backend/dict/filter.py FilterSet) against the abstract
(name -> bytes map, optional active name), and the ManageSieve dispatch gate (pymap/sieve/manage/__init__.py run())."""
import z3

from pyvc.values import *
from pyvc.values import _b, _t
from pyvc.engine import Contract, Loop, PyRaise, Unsupported

F = 'pymap/backend/dict/filter.py'
NameS = RefS('ScriptName')
ScriptS = RefS('ScriptBytes')
FS = RecS('FilterSet', pyclass=(F, 'FilterSet'), _filters=MapS(NameS, ScriptS), _active=OptS(NameS))


def inv(m):
    return when_some(m._active, lambda a: m._filters.has(a))


def unchanged(s):
    return (s.self._filters == s.old.self._filters) & (s.self._active.eq(s.old.self._active))


def others_same(s, *names):
    def cl(k):
        c = VBool(True)
        for n in names:
            c = c & (k != n)
        return implies(c, (s.self._filters.has(k) == s.old.self._filters.has(k)) &
                       (s.self._filters[k] == s.old.self._filters[k]))
    return forall(cl, sort=NameS)


_INV = [('active_is_a_stored_name', lambda s: inv(s.self))]
_RAISE_UNCHANGED = [('refused_operation_changes_nothing', unchanged)]

put = Contract('C19', F, 'FilterSet.put', params=dict(self=FS, name=NameS, value=ScriptS), requires=_INV,
               ensures=_INV + [('stores_exactly_this_script', lambda s: s.self._filters.has(s.name) &
                                (s.self._filters[s.name] == s.value)),
                               ('other_scripts_untouched', lambda s: others_same(s, s.name)),
                               ('active_unchanged', lambda s: s.self._active.eq(s.old.self._active))],
               modifies=['self._filters'], raises_only=())

get = Contract('C19', F, 'FilterSet.get', params=dict(self=FS, name=NameS), requires=_INV,
               ensures=[('returns_the_stored_bytes', lambda s: s.result == s.self._filters[s.name]),
                        ('only_for_a_stored_name', lambda s: s.self._filters.has(s.name))],
               raises={KeyError: [('only_for_a_missing_name', lambda s: ~s.self._filters.has(s.name))] + _RAISE_UNCHANGED},
               modifies=[], raises_only=(KeyError,), returns=ScriptS)

delete = Contract('C19', F, 'FilterSet.delete', params=dict(self=FS, name=NameS), requires=_INV,
                  ensures=_INV + [('removes_exactly_this_script', lambda s: ~s.self._filters.has(s.name) &
                                   s.old.self._filters.has(s.name)),
                                  ('never_the_active_script', lambda s: ~s.old.self._active.eq(s.name)),
                                  ('other_scripts_untouched', lambda s: others_same(s, s.name)),
                                  ('active_unchanged', lambda s: s.self._active.eq(s.old.self._active))],
                  raises={KeyError: [('only_for_a_missing_name', lambda s: ~s.old.self._filters.has(s.name))] +
                          _RAISE_UNCHANGED,
                          ValueError: [('only_for_the_active_script', lambda s: s.old.self._active.eq(s.name))] +
                          _RAISE_UNCHANGED},
                  modifies=['self._filters'], raises_only=(KeyError, ValueError))

rename = Contract(
    'C19', F, 'FilterSet.rename', params=dict(self=FS, before_name=NameS, after_name=NameS), requires=_INV,
    ensures=_INV + [
        ('content_moves_to_the_new_name', lambda s: s.self._filters.has(s.after_name) &
         (s.self._filters[s.after_name] == s.old.self._filters[s.before_name]) &
         ~s.self._filters.has(s.before_name)),
        ('only_when_source_exists_and_target_is_free', lambda s: s.old.self._filters.has(s.before_name) &
         ~s.old.self._filters.has(s.after_name)),
        ('active_status_follows', lambda s: ite(s.old.self._active.eq(s.before_name),
                                                s.self._active.eq(s.after_name),
                                                s.self._active.eq(s.old.self._active))),
        ('other_scripts_untouched', lambda s: others_same(s, s.before_name, s.after_name)),
    ],
    raises={KeyError: [('only_for_missing_source_or_existing_target', lambda s: ~s.old.self._filters.has(
        s.before_name) | s.old.self._filters.has(s.after_name))] + _RAISE_UNCHANGED},
    modifies=['self._filters', 'self._active'], raises_only=(KeyError,))

set_active = Contract('C19', F, 'FilterSet.set_active', params=dict(self=FS, name=NameS), requires=_INV,
                      ensures=_INV + [('activates_a_stored_name', lambda s: s.self._active.eq(s.name) &
                                       s.self._filters.has(s.name)),
                                      ('scripts_untouched', lambda s: s.self._filters == s.old.self._filters)],
                      raises={KeyError: [('only_for_a_missing_name', lambda s: ~s.old.self._filters.has(s.name))] +
                              _RAISE_UNCHANGED},
                      modifies=['self._active'], raises_only=(KeyError,))

clear_active = Contract('C19', F, 'FilterSet.clear_active', params=dict(self=FS), requires=_INV,
                        ensures=_INV + [('no_active_script', lambda s: is_none(s.self._active)),
                                        ('scripts_untouched', lambda s: s.self._filters == s.old.self._filters)],
                        modifies=['self._active'], raises_only=())

get_active = Contract('C19', F, 'FilterSet.get_active', params=dict(self=FS), requires=_INV,
                      ensures=[('bytes_of_the_active_script', lambda s: ite(
                          is_none(s.self._active), is_none(s.result),
                          when_some(s.result, lambda r: r == s.self._filters[s.self._active.val()], none=False)))],
                      modifies=[], raises_only=())

get_all = Contract('C19', F, 'FilterSet.get_all', params=dict(self=FS), requires=_INV,
                   ensures=[('lists_exactly_the_stored_names_and_the_active_one', lambda s: (
                       s.result[0].eq(s.self._active)) & forall(lambda k: s.self._filters.has(k) == exists(
                           lambda i: (i >= 0) & (i < s.result[1].len) & (s.result[1][i] == k)), sort=NameS))],
                   modifies=[], raises_only=())

CONTRACTS = [put, get, delete, rename, set_active, clear_active, get_active, get_all]


# ---- ManageSieveConnection.run : no script access before login

FR = 'pymap/sieve/manage/__init__.py'
StateR = RefS('FilterState')
RespS = RefS('SieveResponse', is_bye=BOOL)
CmdS = RefS('SieveCmd', kind=INT, tag=RefS('Bytes'))
CONN = RecS('ManageSieveConnection', pyclass=(FR, 'ManageSieveConnection'), _state=OptS(StateR),
            capabilities=RefS('Caps'))
K = dict(noop=0, logout=1, capability=2, authenticate=3, starttls=4, unauthenticate=5, script=6)


def _bind():
    from pymap.sieve.manage import command as C
    m = {C.NoOpCommand: K['noop'], C.LogoutCommand: K['logout'], C.CapabilityCommand: K['capability'],
         C.AuthenticateCommand: K['authenticate'], C.StartTLSCommand: K['starttls'],
         C.UnauthenticateCommand: K['unauthenticate']}

    def hook(ex, ref, classes):
        k = ex.st.heap_get(ref, 'kind').t
        r = z3.BoolVal(False)
        for c in classes:
            if c not in m:
                raise Unsupported(f'isinstance(cmd, {c.__name__})')
            r = z3.Or(r, k == m[c])
        return VBool(r)
    CmdS.isinstance_hook = hook


_bind()


def _resp(ex, frame, e, base=None):
    return RespS.fresh('resp')


def _read_command(ex, frame, e, base):
    from pymap.parsing.exceptions import NotParseable
    c = ex.choose(3)
    if c == 1:
        raise PyRaise(EOFError)
    if c == 2:
        raise PyRaise(NotParseable)
    cmd = CmdS.fresh('cmd')
    k = ex.st.heap_get(cmd, 'kind')
    ex.assume((k >= 0) & (k <= 6))
    ex.st.ghost['cmd'] = cmd
    return cmd


def _effect(name, needs_state):
    def model(ex, frame, e, base):
        conn = ex.frames[0].env['self']
        state = ex.st.store[conn.rid]['_state']
        cmd = ex.st.ghost.get('cmd')
        kind = ex.st.heap_get(cmd, 'kind').t
        if needs_state:
            ex.oblige(f'{ex.c.name}/effect:{name}/only_after_authentication', z3.Not(state.is_none().t))
        else:
            ex.oblige(f'{ex.c.name}/effect:{name}/only_before_authentication', state.is_none().t)
            ex.oblige(f'{ex.c.name}/effect:{name}/only_for_its_own_command',
                      kind == (K['authenticate'] if name == '_do_authenticate' else K['starttls']))
        if name in ('_do_authenticate', '_do_unauthenticate'):
            ex.st.store[conn.rid]['_state'] = OptS(StateR).fresh('state')
        if ex.choose(2) == 1:
            raise PyRaise(RuntimeError)
        return RespS.fresh('resp')
    return model


def _state_run(ex, frame, e, base):
    """FilterState.run(cmd): the only path to the script store"""
    conn = ex.frames[0].env['self']
    state = ex.st.store[conn.rid]['_state']
    ex.oblige(f'{ex.c.name}/effect:script_command/only_after_authentication', z3.Not(state.is_none().t))
    if ex.choose(2) == 1:
        raise PyRaise(RuntimeError)
    return RespS.fresh('resp')


RUN_REG = {
    ('ManageSieveConnection', '_do_greeting'): _resp,
    ('ManageSieveConnection', '_write_response'): lambda ex, frame, e, base: VNone(),
    ('ManageSieveConnection', '_read_command'): _read_command,
    ('ManageSieveConnection', '_do_authenticate'): _effect('_do_authenticate', False),
    ('ManageSieveConnection', '_do_starttls'): _effect('_do_starttls', False),
    ('ManageSieveConnection', '_do_unauthenticate'): _effect('_do_unauthenticate', True),
    ('ManageSieveConnection', '_print'): lambda ex, frame, e, base: VNone(),
    ('FilterState', 'run'): _state_run,
}

run = Contract(
    'C19', FR, 'ManageSieveConnection.run', params=dict(self=CONN),
    calls={'BadCommandResponse': _resp, 'NoOpResponse': _resp, 'Response': _resp, 'CapabilitiesResponse': _resp,
           'str': lambda ex, frame, e: VConst('str'), 'socket_info.get': lambda ex, frame, e: VConst('sock'),
           '_log.exception': lambda ex, frame, e: VNone()},
    loops={0: Loop(ghost=['cmd'])}, ghost_init=lambda st, sc: st.ghost.__setitem__('cmd', CmdS.fresh('nocmd')),
    typemap={'Response': RespS}, raises_only=(),
    note='every exception of a command handler is answered NO "Server error."; the connection loop ends only on '
         'EOF / connection error or after BYE')
REG = dict(RUN_REG)
CONTRACTS += [run]
