"""Contracts for the maildir backend's UID assignment (pymap/backend/maildir/mailbox.py, uidlist.py) -- C15 (and the
maildir half of C04).

`async with UidList.with_write(path) as uidl` is modelled as: the UID list as read from disk under the write lock, which
satisfies the file invariant UidListInv (every recorded uid is positive and below next_uid); when the block is left the
list is written back (FileWriteable.file_write), so at that point the block must have re-established UidListInv, must not
have changed or dropped any record that was in the file (no UID is given to a different message), and next_uid must not
have gone down.  append / copy / move hand out exactly the old next_uid and record it; reset (recovery after a restart)
gives files that are not in the list fresh uids starting at next_uid and advances next_uid past them; the message file is
put into the maildir before the list is written."""
import z3

from pyvc.values import *
from pyvc.values import _t, _b
from pyvc.engine import Contract, Loop, PyRaise, Unsupported

F = 'pymap/backend/maildir/mailbox.py'
FU = 'pymap/backend/maildir/uidlist.py'

Str = RefS('Bytes')             # opaque strings (file names, keys); '+' on them is opaque
RecordS = RefS('Record', uid=INT, filename=Str, key=Str, fields=RefS('Fields'))
UIDL = RecS('UidList', pyclass=(FU, 'UidList'), next_uid=INT, uid_validity=INT, _records=MapS(INT, RecordS),
            _touched=BOOL, _watched=BOOL)
MsgR = RefS('MaildirMsg')
MBX = RefS('MaildirMailbox', _path=Str, _maildir=RefS('Maildir'), maildir_flags=RefS('MFlags'), messages_lock=RefS('RWLock'),
           _uid_validity=INT, _next_uid=INT)


def inv(records, next_uid):
    return forall(lambda u: implies(records.has(u), (u > 0) & (u < next_uid) & (records[u].uid == u)), sort=INT)


class UidListCtx:
    """context-manager model of UidList.with_write(path) (see module docstring)"""

    def __init__(self, may_remove=False, may_drop=None, on_enter=None):
        self.may_remove = may_remove
        self.on_enter = on_enter        # (ex, frame, which list, the record) -> None: facts about the list just read
        self.may_drop = may_drop        # (ex, frame) -> z3 predicate over a uid term: the one record the block may drop

    def __call__(self, ex, frame, item, phase):
        name = ex.c.name
        if phase == 'enter':
            uidl = ex.st.new_record(UIDL, 'uidl')
            recs = ex.st.store[uidl.rid]['_records']
            nxt = ex.st.store[uidl.rid]['next_uid']
            ex.assume(_b(inv(ex.wrap_value(recs) if hasattr(ex, 'wrap_value') else _MapView(recs), VInt(_t(nxt)))))
            ex.assume(_t(nxt) >= 1)
            ex.st.ghost['uidl.old_records'] = recs
            ex.st.ghost['uidl.old_next'] = VInt(_t(nxt))
            ex.st.ghost['uidl.rid'] = uidl
            ex.st.ghost['uidl.news_at_open'] = len(ex.st.ghost.get('new_records', []))
            ex.st.ghost['uidl.held'] = True
            ex.st.events.append('uidlist.open')
            if self.on_enter is not None:
                import ast as _ast
                self.on_enter(ex, frame, _ast.unparse(item.context_expr.args[0]), uidl)
            if item.optional_vars is not None:
                ex.assign(item.optional_vars, uidl, frame)
            return
        uidl = ex.st.ghost['uidl.rid']
        ex.st.ghost['uidl.held'] = False
        recs = _MapView(ex.st.store[uidl.rid]['_records'])
        nxt = VInt(_t(ex.st.store[uidl.rid]['next_uid']))
        old = _MapView(ex.st.ghost['uidl.old_records'])
        oldn = ex.st.ghost['uidl.old_next']
        ex.oblige(f'{name}/uidlist_written/UidListInv', _b(inv(recs, nxt)))
        ex.oblige(f'{name}/uidlist_written/next_uid_never_goes_down', _b(nxt >= oldn))
        import ast as _ast
        which = _ast.unparse(item.context_expr.args[0]) if getattr(item.context_expr, 'args', None) else ''
        ex.st.ghost.setdefault('uidl.finals', []).append((which, ex.st.store[uidl.rid]['_records']))
        if not self.may_remove:
            drop = self.may_drop(ex, frame, which) if self.may_drop is not None else (lambda u: z3.BoolVal(False))
            ex.oblige(f'{name}/uidlist_written/no_recorded_uid_is_dropped_or_given_to_another_message',
                      _b(forall(lambda u: implies(old.has(u) & ~VBool(drop(_t(u))), recs.has(u) & (recs[u] == old[u])) &
                                implies(old.has(u) & recs.has(u), recs[u] == old[u]), sort=INT)))
        untouched = ex.st.store[uidl.rid]['_records'] is ex.st.ghost['uidl.old_records'] and \
            z3.eq(_t(ex.st.store[uidl.rid]['next_uid']), _t(ex.st.ghost['uidl.old_next']))
        adds = len(ex.st.ghost.get('new_records', [])) > ex.st.ghost.get('uidl.news_at_open', 0)
        if adds or 'uidl.final_records' not in ex.st.ghost:
            # the facts about "the list a record was added to" are those of the context that added it
            ex.st.ghost['uidl.final_records'] = ex.st.store[uidl.rid]['_records']
            ex.st.ghost['uidl.final_next'] = nxt
            ex.st.ghost['uidl.add_old_next'] = oldn
        if not untouched:
            # FileWriteable: the file is rewritten only when the object was touched
            ex.st.events.append('uidlist.written')


class _MapView:
    """clause-level view of a VMap of Record refs"""

    def __init__(self, m):
        self.m = m

    def has(self, u):
        return self.m.has(u if not isinstance(u, z3.ExprRef) else VInt(u))

    def __getitem__(self, u):
        return _RecView(self.m.at(u if not isinstance(u, z3.ExprRef) else VInt(u)))


UID_OF = z3.Function('Record.uid', RecordS.z3(), z3.IntSort())


class _RecView:
    def __init__(self, r):
        self.r = r

    @property
    def uid(self):
        return VInt(UID_OF(self.r.t))

    def __eq__(self, o):
        return VBool(self.r.t == o.r.t)


def _record_ctor(ex, frame, e, base=None):
    args, kw = ex.eval_args(e, frame)
    r = RecordS.fresh('record')
    ex.assume(UID_OF(r.t) == _t(args[0]))
    if not ex.c.name.endswith('.reset'):
        ex.st.ghost.setdefault('new_records', []).append((r, args[0]))
    return r


def _rec_uid(ex, frame, ref):
    return VInt(UID_OF(ref.t))


def _noop_ctx(ex, frame, item, phase):
    return None


def _while_the_list_is_held(ex, what):
    """a file may appear in (or the directory be listed for) a maildir only while that mailbox's UID list is locked: between
    the appearance of a file and the writing of its record no other session may adopt it (reset) or, between a directory
    listing and the pruning of records, no other session may add one (cleanup)"""
    ex.oblige(f'{ex.c.name}/{what}/only_while_the_uid_list_is_locked', z3.BoolVal(bool(ex.st.ghost.get('uidl.held', False))))


def _opaque(sort, name, event=None):
    def model(ex, frame, e, base=None):
        ex.eval_args(e, frame)
        if event:
            if event == 'maildir.add':
                _while_the_list_is_held(ex, 'file_appears')
            ex.st.events.append(event)
        return sort.fresh(name)
    return model


_CALLS = {
    'UidList.with_write': UidListCtx(),
    'self.messages_lock.write_lock': _noop_ctx, 'self.messages_lock.read_lock': _noop_ctx,
    'destination.messages_lock.write_lock': _noop_ctx,
    'Record': _record_ctor,
    'ObjectId.random_email_id': _opaque(RefS('Oid'), 'eid'), 'ObjectId.random_thread_id': _opaque(RefS('Oid'), 'tid'),
    'Message.to_maildir': _opaque(MsgR, 'maildir_msg'), 'Message.from_maildir': _opaque(RefS('Message'), 'message'),
    'maildir.add': _opaque(Str, 'key', event='maildir.add'), 'dest_maildir.add': _opaque(Str, 'key', event='maildir.add'),
    'maildir_msg.get_info': _opaque(Str, 'info'), 'copy_msg.get_info': _opaque(Str, 'info'), 'str': _opaque(Str, 'str'),
    'self.touch': lambda ex, frame, e, base=None: VNone(),
    'MaildirMessage': _opaque(MsgR, 'copy_msg'), 'copy_msg.set_subdir': lambda ex, frame, e, base=None: VNone(),
}


def _new_uid_facts(s):
    """the single record added: uid = the old next_uid, stored under that uid, next_uid advanced by one"""
    st = s._st
    news = st.ghost.get('new_records', [])
    if len(news) != 1:
        return VBool(False)
    r, u = news[0]
    final = _MapView(st.ghost['uidl.final_records'])
    oldn = st.ghost.get('uidl.add_old_next', st.ghost['uidl.old_next'])
    return (VInt(_t(u)) == oldn) & final.has(VInt(_t(u))) & VBool(final.m.at(VInt(_t(u))).t == r.t) & \
        (st.ghost['uidl.final_next'] == oldn + 1)


def _ghost0(st, sc=None):
    st.ghost.pop('new_records', None)


append = Contract(
    'C15', F, 'MailboxData.append', params=dict(self=MBX, append_msg=RefS('AppendMsg'), recent=BOOL), calls=_CALLS,
    ensures=[('hands_out_exactly_the_old_next_uid_and_advances_it', _new_uid_facts),
             ('message_file_is_stored_before_the_uid_list_is_written',
              lambda s: VBool(s._st.events.index('maildir.add') < s._st.events.index('uidlist.written')
                              if 'maildir.add' in s._st.events and 'uidlist.written' in s._st.events else False))],
    raises_only=(), ghost_init=_ghost0)
append.attr_models = {('Record', 'uid'): _rec_uid}


def _get_maildir_msg(ex, frame, e, base=None):
    ex.eval_args(e, frame)
    if ex.choose(2) == 1:
        raise PyRaise(KeyError)
    return VTuple([RecordS.fresh('src_record'), MsgR.fresh('meta')])


def _get_message(ex, frame, e, base=None):
    ex.eval_args(e, frame)
    if ex.choose(2) == 1:
        raise PyRaise(FileNotFoundError)
    return MsgR.fresh('full_msg')


copy = Contract(
    'C15', F, 'MailboxData.copy', params=dict(self=MBX, uid=INT, destination=MBX, recent=BOOL),
    calls=dict(_CALLS, **{'self._get_maildir_msg': _get_maildir_msg, 'self._maildir.get_message': _get_message}),
    ensures=[('hands_out_exactly_the_old_next_uid_of_the_destination', lambda s: implies(~is_none(s.result), _new_uid_facts(s) & (
        _val(s.result) == s._st.ghost['uidl.old_next'] if 'uidl.old_next' in s._st.ghost else VBool(False)))),
        ('nothing_is_written_when_the_source_is_gone', lambda s: implies(is_none(s.result), VBool('uidlist.written' not in s._st.events)))],
    raises_only=(), ghost_init=_ghost0, returns=OptS(INT))
copy.attr_models = {('Record', 'uid'): _rec_uid}


def _val(v):
    return v.val() if hasattr(v, 'val') else v


class _ReadCtx:
    """UidList.with_read: a read-only view of the list"""

    def __call__(self, ex, frame, item, phase):
        if phase == 'enter':
            uidl = ex.st.new_record(UIDL, 'uidl_ro')
            if item.optional_vars is not None:
                ex.assign(item.optional_vars, uidl, frame)


def _uidl_get(ex, frame, e, base=None):
    ex.eval_args(e, frame)
    if ex.choose(2) == 1:
        raise PyRaise(KeyError)
    return RecordS.fresh('src_record')


def _move_message(ex, frame, e, base=None):
    ex.eval_args(e, frame)
    k = ex.choose(3)
    if k == 1:
        raise PyRaise(KeyError)
    if k == 2:
        raise PyRaise(FileNotFoundError)
    _while_the_list_is_held(ex, 'file_appears')
    ex.st.events.append('maildir.add')
    return Str.fresh('new_filename')


def _moved_within_the_same_mailbox(ex, frame, which):
    """the one record a MOVE may drop: that of the moved message's old uid, in the list of the mailbox it leaves -- the
    source's list (`self._path`) when the file went to another mailbox, the destination's when source and destination are
    the same mailbox (the message is re-numbered); never a record of a different destination"""
    me, dest, uid = ex.frames[0].env['self'], ex.frames[0].env['destination'], ex.frames[0].env['uid']
    if which == 'self._path':
        return lambda u: u == _t(uid)
    return lambda u: z3.And(me.t == dest.t, u == _t(uid))


def _found_in_the_source_list_before(ex, frame, which, uidl):
    """LINK (rely on the UID-list file, guaranteed by every verified writer): the moved message's record was found in the
    source mailbox's list at the start of move(), so uid < that list's next_uid then (UidListInv), and next_uid of a list
    never goes down (obligation next_uid_never_goes_down of every writer): uid < next_uid still holds whenever the source
    mailbox's list is read again -- under `self._path`, or under `destination._path` when both are the same mailbox"""
    me, dest, uid = ex.frames[0].env['self'], ex.frames[0].env['destination'], ex.frames[0].env['uid']
    nxt = _t(ex.st.store[uidl.rid]['next_uid'])
    if which == 'self._path':
        ex.assume(_t(uid) < nxt)
    else:
        ex.assume(z3.Implies(me.t == dest.t, _t(uid) < nxt))


def _old_uid_is_gone(s):
    """after a successful MOVE no list written by it still maps the old uid of the source mailbox: the file keeps its
    name, so a surviving record would revive the expunged uid as soon as the file is moved back"""
    finals = dict(s._st.ghost.get('uidl.finals', []))
    same = _t(s.self) == _t(s.destination)
    lacks = {k: z3.Not(_b(_MapView(v).has(_t(s.uid)))) for k, v in finals.items()}
    dst = lacks.get('destination._path', z3.BoolVal(False))
    if 'self._path' in lacks:
        body = z3.If(same, dst, lacks['self._path'])
    else:
        body = z3.And(same, dst)
    return implies(~is_none(s.result), VBool(body))


class _Stack:
    """AsyncExitStack + enter_async_context of the message locks: no effect on the UID list"""

    def __call__(self, ex, frame, item, phase):
        if phase == 'enter' and item.optional_vars is not None:
            ex.assign(item.optional_vars, RefS('ExitStack').fresh('stack'), frame)


def _uidl_remove(ex, frame, e, base=None):
    """UidList.remove(uid): del self._records[uid] (KeyError when absent -- outside the model: the record was read above)"""
    args, kw = ex.eval_args(e, frame)
    uidl = ex.st.ghost['uidl.rid']
    recs = ex.st.store[uidl.rid]['_records']
    ex.st.store[uidl.rid]['_records'] = recs.delete(args[0])
    return VNone()


move = Contract(
    'C15', F, 'MailboxData.move', params=dict(self=MBX, uid=INT, destination=MBX, recent=BOOL),
    calls=dict(_CALLS, **{'UidList.with_read': _ReadCtx(), 'uidl.get': _uidl_get, 'maildir.move_message': _move_message,
                          'UidList.with_write': UidListCtx(may_drop=_moved_within_the_same_mailbox, on_enter=_found_in_the_source_list_before), 'AsyncExitStack': _Stack(),
                          'stack.enter_async_context': lambda ex, frame, e, base=None: VNone(), 'uidl.remove': _uidl_remove}),
    ensures=[('hands_out_exactly_the_old_next_uid_of_the_destination', lambda s: implies(~is_none(s.result), _new_uid_facts(s))),
             ('the_old_uid_is_dropped_from_the_list_of_the_mailbox_it_left', _old_uid_is_gone),
             ('nothing_is_written_when_the_source_is_gone', lambda s: implies(is_none(s.result), VBool('uidlist.written' not in s._st.events)))],
    raises_only=(), ghost_init=_ghost0, returns=OptS(INT))
move.attr_models = {('Record', 'uid'): _rec_uid}


# ---- reset: recovery of files that are not in the list (after a crash between "message stored" and "list written")
KeysS = MapS(Str, Str)


def _get_keys(ex, frame, e, base=None):
    _while_the_list_is_held(ex, 'directory_listing')
    m = KeysS.fresh('keys')
    return m


def _reset_inv(s):
    st = s._st
    uidl = st.ghost['uidl.rid']
    recs = _MapView(st.store[uidl.rid]['_records'])
    nxt = VInt(_t(st.store[uidl.rid]['next_uid']))
    old = _MapView(st.ghost['uidl.old_records'])
    return inv(recs, nxt) & (nxt >= st.ghost['uidl.old_next']) & forall(
        lambda u: implies(old.has(u), recs.has(u) & (recs[u] == old[u])), sort=INT)


reset = Contract(
    'C15', F, 'MailboxData.reset', params=dict(self=MBX),
    calls=dict(_CALLS, **{'self._get_keys': _get_keys}),
    loops={0: Loop(), 1: Loop(invariant=[('uid_list_stays_valid_while_unknown_files_are_adopted', _reset_inv)])},
    ensures=[('the_mailbox_continues_from_the_written_next_uid',
              lambda s: (s.self._next_uid == s._st.ghost['uidl.final_next']) if 'uidl.final_next' in s._st.ghost else VBool(False))],
    raises_only=(), modifies=['self._uid_validity', 'self._next_uid'], ghost_init=_ghost0)
reset.attr_models = {('Record', 'uid'): _rec_uid, ('Record', 'key'): lambda ex, frame, ref: Str.fresh('reckey')}

for _c in (append, copy, move, reset):
    _c.opaque_dict_literal = RefS('Fields')
    _c.inline = {'UidList.set'}
CONTRACTS = [append, copy, move, reset]
