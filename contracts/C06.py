"""C06 -- every input is answered: no hang, no internal error, no silent drop.

Deductive kernel (pyvc + z3): modutf7_decode terminates (variant) and raises only ValueError; modutf7_encode is total and
yields printable ASCII; Commands.parse lets nothing but the continuation interrupt escape whatever the command parsers
raise (NotParseable, ValueError incl. UnicodeDecodeError and the int() digit limit, LookupError, RecursionError);
IMAPConnection._run_state (contracts/runstate.py, everything it calls abstract and free to raise anything the loop
distinguishes): every command read is answered by exactly one response with its tag or by the error disconnect before the
next one is read or the loop is left, cleanup runs after every command, nothing is read after a terminal response, an
exception escapes only after the error disconnect.
The statement itself is a totality statement over the whole server (stream reading, dispatch, backends, response writing):
it is decided on the stated scope by the bounded run of harness/e2e_total.py on the real servers."""
from pyvc.prop import Property, Bounded
from . import total as T, runstate as RS
from harness.e2e_total import bounded_total

PROPERTY = Property(
    'C06', 'Every input is answered: no hang, no internal error, no silent drop',
    contracts=T.CONTRACTS + RS.CONTRACTS + RS.CONTRACTS_AUTH + RS.CONTRACTS_READ,
    bounded=[Bounded('grammar-derived, mutated and raw command lines in three states; hostile messages fetched and searched; ManageSieve; maildir',
                     '61 seed commands (every built-in command) x ~90 mutations each (truncation, insertion of 22 special byte '
                     'strings, token drop/duplication/case/huge number/parenthesise/quote/literal forms) + 140 special lines (60000-byte '
                     'lines, 5000-20000-fold nesting, 5000-digit numbers and literal lengths, bad dates, 12 charsets with undecodable '
                     'text, bad tags) + 300 (thorough 4000) raw byte lines, each in the not-authenticated, authenticated and selected '
                     'state (~17000 lines), a second connection polled after every line, watchdog per batch; runs of bad lines under '
                     'the default bad-command limit; 515 hostile messages each fetched with 9 FETCH lines (every attribute) and '
                     'searched with 41 SEARCH keys; 1500 ManageSieve lines before/after authentication; the maildir backend (both '
                     'layouts) with every seed command and 18 hostile/over-long names in 10 commands',
                     bounded_total('C06'), decisive=True)],
    level='other', design_ref='6 C06',
    explanation='deductive: the modified-UTF-7 decoder cannot spin, the command parser front converts every parser exception '
                'into BAD (z3); everything else -- reading, dispatch, backends, response writing, the ManageSieve loop -- is '
                'decided on the stated scope by the bounded run with a watchdog',
    trusted_base=['binascii / codecs helpers of modutf7 raise only ValueError subclasses', 'asyncio stream reader limit (64 KiB) bounds a line',
                  'lines longer than the stream limit are outside the property\'s quantifier and not sent'],
)
